/* plain C client (no -fblocks): the destructor constants are dispatch_function_t */
#include <dispatch/dispatch.h>
extern dispatch_data_t dispatch_data_create_f(const void *buffer, size_t size, dispatch_queue_t queue, dispatch_function_t destructor);
#include <sys/mman.h>
#include <stdio.h>
#include <string.h>
#include <unistd.h>
int main(void) {
	size_t sz = 4096;
	char *p = mmap(NULL, sz, PROT_READ|PROT_WRITE, MAP_PRIVATE|MAP_ANONYMOUS, -1, 0);
	memset(p, 'x', sz);
	dispatch_data_t d = dispatch_data_create_f(p, sz, NULL, DISPATCH_DATA_DESTRUCTOR_MUNMAP);
	dispatch_release(d);
	sleep(1);
	unsigned char vec;
	int r = mincore(p, sz, &vec);
	printf("mincore after release: %d (expected -1: unmapped)\n", r);
	return r == -1 ? 0 : 1;
}
