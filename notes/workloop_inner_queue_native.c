#include <dispatch/dispatch.h>
#include <stdio.h>
#include <unistd.h>
#include <stdatomic.h>
typedef struct dispatch_workloop_s *dispatch_workloop_t;
extern dispatch_workloop_t dispatch_workloop_create(const char *label);
static atomic_int ran, inside, overlap;
int main(void) {
	dispatch_workloop_t wl = dispatch_workloop_create("wl");
	dispatch_queue_t q = dispatch_queue_create_with_target("inner", DISPATCH_QUEUE_SERIAL, (dispatch_queue_t)wl);
	dispatch_queue_t q2 = dispatch_queue_create_with_target("inner2", DISPATCH_QUEUE_SERIAL, (dispatch_queue_t)wl);
	for (int i = 0; i < 8; i++) {
		dispatch_async(i & 1 ? q : q2, ^{ if (atomic_fetch_add(&inside, 1) != 0) atomic_store(&overlap, 1); usleep(2000); atomic_fetch_sub(&inside, 1); atomic_fetch_add(&ran, 1); });
	}
	for (int i = 0; i < 50 && atomic_load(&ran) < 8; i++) usleep(100000);
	printf("ran=%d of 8, overlap=%d\n", atomic_load(&ran), atomic_load(&overlap));
	return atomic_load(&ran) == 8 && !atomic_load(&overlap) ? 0 : 1;
}
