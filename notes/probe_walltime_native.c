#include <dispatch/dispatch.h>
#include <stdio.h>
#include <time.h>
int main(void){
  struct timespec ts={.tv_sec=4700000000LL,.tv_nsec=0}; // year ~2118 : > 2^62 ns
  dispatch_time_t t=dispatch_walltime(&ts,0);
  printf("walltime(ts=4.7e9s,0) = 0x%016llx top2=%llu\n",(unsigned long long)t,(unsigned long long)(t>>62));
  t=dispatch_walltime(NULL,3000000000000000000LL);
  printf("walltime(NULL,3e18) = 0x%016llx top2=%llu\n",(unsigned long long)t,(unsigned long long)(t>>62));
  dispatch_time_t t2=dispatch_walltime(NULL,2000000000000000000LL);
  printf("walltime(NULL,2e18) = 0x%016llx top2=%llu\n",(unsigned long long)t2,(unsigned long long)(t2>>62));
  // chained: dispatch_time on the result
  dispatch_time_t t3=dispatch_time(t, 0);
  printf("dispatch_time(that,0) = 0x%016llx\n",(unsigned long long)t3);
  struct timespec neg={.tv_sec=-10,.tv_nsec=0};
  t=dispatch_walltime(&neg,0);
  printf("walltime(ts=-10s,0) = 0x%016llx\n",(unsigned long long)t);
  t=dispatch_walltime(&neg,-9000000000000000000LL);
  printf("walltime(ts=-10s,-9e18) = 0x%016llx\n",(unsigned long long)t);
  return 0;
}
