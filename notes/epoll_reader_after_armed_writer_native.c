#include <dispatch/dispatch.h>
#include <sys/socket.h>
#include <stdio.h>
#include <unistd.h>
#include <fcntl.h>
#include <errno.h>
#include <stdatomic.h>
static atomic_int rd_calls, wr_calls;
int main(void) {
	int sv[2]; socketpair(AF_UNIX, SOCK_STREAM, 0, sv);
	fcntl(sv[0], F_SETFL, fcntl(sv[0], F_GETFL) | O_NONBLOCK);
	char buf[4096] = {0}; while (write(sv[0], buf, sizeof buf) > 0) ;   /* fill the send buffer: sv[0] is NOT writable now */
	dispatch_queue_t q = dispatch_queue_create("q", NULL); int fd0 = sv[0];
	dispatch_source_t w = dispatch_source_create(DISPATCH_SOURCE_TYPE_WRITE, (uintptr_t)sv[0], 0, q);
	dispatch_source_set_event_handler(w, ^{ atomic_fetch_add(&wr_calls, 1); });
	dispatch_resume(w);
	usleep(100000);
	dispatch_source_t r = dispatch_source_create(DISPATCH_SOURCE_TYPE_READ, (uintptr_t)sv[0], 0, q);
	dispatch_source_set_event_handler(r, ^{ atomic_fetch_add(&rd_calls, 1); char c; while (read(fd0, &c, 1) > 0) ; });
	dispatch_resume(r);
	usleep(100000);
	write(sv[1], "x", 1);          /* sv[0] becomes readable (and is still not writable) */
	usleep(500000);
	printf("write handler calls=%d (expected 0: still not writable); read handler calls after a byte arrived=%d (expected >= 1)\n", atomic_load(&wr_calls), atomic_load(&rd_calls));
	return atomic_load(&rd_calls) >= 1 && atomic_load(&wr_calls) == 0 ? 0 : 1;
}
