/* probe: verification model of os_atomic_* for CBMC */
#ifndef __OS_INTERNAL_ATOMIC__
#define __OS_INTERNAL_ATOMIC__ 1
#define memory_order_ordered    memory_order_seq_cst
#define memory_order_dependency memory_order_acquire
#define os_atomic(type) type
#define _os_atomic_basetypeof(p) __typeof__(*(p))

extern _Bool __verif_interference; extern unsigned long long __verif_n, __verif_ov[4], __verif_nv[4]; extern const volatile void *__verif_p[4];
/* ghost commit log */
void __verif_commit(const volatile void *p, unsigned long long ov, unsigned long long nv);
void __verif_rely(const volatile void *p, unsigned long long *v);

#define __VERIF_LOADVAL(p) ({ __typeof__(*(p)) _lv; if (__verif_interference) { __typeof__(*(p)) _nd; unsigned long long _u = (unsigned long long)_nd; __verif_rely((p), &_u); _lv = (__typeof__(*(p)))_u; } else { _lv = *(p); } _lv; })

#define os_atomic_load(p, m) __VERIF_LOADVAL(p)
#define os_atomic_store(p, v, m) ({ __typeof__(*(p)) _sv = (v); __typeof__(*(p)) _so = __VERIF_LOADVAL(p); __verif_commit((p),(unsigned long long)_so,(unsigned long long)_sv); *(p) = _sv; })
#define os_atomic_xchg(p, v, m) ({ __typeof__(*(p)) _xv = (v); __typeof__(*(p)) _xo = __VERIF_LOADVAL(p); __verif_commit((p),(unsigned long long)_xo,(unsigned long long)_xv); *(p) = _xv; _xo; })
#define os_atomic_cmpxchgv(p, e, v, g, m) ({ __typeof__(*(p)) _ce = (e); __typeof__(*(p)) _cv = (v); __typeof__(*(p)) _co = __VERIF_LOADVAL(p); _Bool _b = (_co == _ce); if (_b) { __verif_commit((p),(unsigned long long)_co,(unsigned long long)_cv); *(p) = _cv; } *(g) = _co; _b; })
#define os_atomic_cmpxchg(p, e, v, m) ({ __typeof__(*(p)) _cg; os_atomic_cmpxchgv(p, e, v, &_cg, m); })
#define os_atomic_cmpxchgvw(p, e, v, g, m) os_atomic_cmpxchgv(p, e, v, g, m)

#define _os_atomic_c11_op(p, v, m, o, op) ({ __typeof__(*(p)) _v = (v); __typeof__(*(p)) _oo = __VERIF_LOADVAL(p); __typeof__(*(p)) _r = (__typeof__(*(p)))(_oo op _v); __verif_commit((p),(unsigned long long)_oo,(unsigned long long)_r); *(p) = _r; _r; })
#define _os_atomic_c11_op_orig(p, v, m, o, op) ({ __typeof__(*(p)) _v = (v); __typeof__(*(p)) _oo = __VERIF_LOADVAL(p); __typeof__(*(p)) _r = (__typeof__(*(p)))(_oo op _v); __verif_commit((p),(unsigned long long)_oo,(unsigned long long)_r); *(p) = _r; _oo; })
#define os_atomic_add(p, v, m) _os_atomic_c11_op((p), (v), m, add, +)
#define os_atomic_add_orig(p, v, m) _os_atomic_c11_op_orig((p), (v), m, add, +)
#define os_atomic_sub(p, v, m) _os_atomic_c11_op((p), (v), m, sub, -)
#define os_atomic_sub_orig(p, v, m) _os_atomic_c11_op_orig((p), (v), m, sub, -)
#define os_atomic_and(p, v, m) _os_atomic_c11_op((p), (v), m, and, &)
#define os_atomic_and_orig(p, v, m) _os_atomic_c11_op_orig((p), (v), m, and, &)
#define os_atomic_or(p, v, m) _os_atomic_c11_op((p), (v), m, or, |)
#define os_atomic_or_orig(p, v, m) _os_atomic_c11_op_orig((p), (v), m, or, |)
#define os_atomic_xor(p, v, m) _os_atomic_c11_op((p), (v), m, xor, ^)
#define os_atomic_xor_orig(p, v, m) _os_atomic_c11_op_orig((p), (v), m, xor, ^)

#define os_atomic_force_dependency_on(p, e) (p)
#define os_atomic_load_with_dependency_on(p, e) os_atomic_load(os_atomic_force_dependency_on(p, e), relaxed)
#define os_atomic_load_with_dependency_on2o(p, f, e) os_atomic_load_with_dependency_on(&(p)->f, e)
#define os_atomic_thread_fence(m) ((void)0)

#define os_atomic_load2o(p, f, m) os_atomic_load(&(p)->f, m)
#define os_atomic_store2o(p, f, v, m) os_atomic_store(&(p)->f, (v), m)
#define os_atomic_xchg2o(p, f, v, m) os_atomic_xchg(&(p)->f, (v), m)
#define os_atomic_cmpxchg2o(p, f, e, v, m) os_atomic_cmpxchg(&(p)->f, (e), (v), m)
#define os_atomic_cmpxchgv2o(p, f, e, v, g, m) os_atomic_cmpxchgv(&(p)->f, (e), (v), (g), m)
#define os_atomic_cmpxchgvw2o(p, f, e, v, g, m) os_atomic_cmpxchgvw(&(p)->f, (e), (v), (g), m)
#define os_atomic_add2o(p, f, v, m) os_atomic_add(&(p)->f, (v), m)
#define os_atomic_add_orig2o(p, f, v, m) os_atomic_add_orig(&(p)->f, (v), m)
#define os_atomic_sub2o(p, f, v, m) os_atomic_sub(&(p)->f, (v), m)
#define os_atomic_sub_orig2o(p, f, v, m) os_atomic_sub_orig(&(p)->f, (v), m)
#define os_atomic_and2o(p, f, v, m) os_atomic_and(&(p)->f, (v), m)
#define os_atomic_and_orig2o(p, f, v, m) os_atomic_and_orig(&(p)->f, (v), m)
#define os_atomic_or2o(p, f, v, m) os_atomic_or(&(p)->f, (v), m)
#define os_atomic_or_orig2o(p, f, v, m) os_atomic_or_orig(&(p)->f, (v), m)
#define os_atomic_xor2o(p, f, v, m) os_atomic_xor(&(p)->f, (v), m)
#define os_atomic_xor_orig2o(p, f, v, m) os_atomic_xor_orig(&(p)->f, (v), m)
#define os_atomic_inc(p, m) os_atomic_add((p), 1, m)
#define os_atomic_inc_orig(p, m) os_atomic_add_orig((p), 1, m)
#define os_atomic_inc2o(p, f, m) os_atomic_add2o(p, f, 1, m)
#define os_atomic_inc_orig2o(p, f, m) os_atomic_add_orig2o(p, f, 1, m)
#define os_atomic_dec(p, m) os_atomic_sub((p), 1, m)
#define os_atomic_dec_orig(p, m) os_atomic_sub_orig((p), 1, m)
#define os_atomic_dec2o(p, f, m) os_atomic_sub2o(p, f, 1, m)
#define os_atomic_dec_orig2o(p, f, m) os_atomic_sub_orig2o(p, f, 1, m)

#define os_atomic_rmw_loop(p, ov, nv, m, ...)  ({ \
		_Bool _result = 0; \
		__typeof__(p) _p = (p); \
		ov = os_atomic_load(_p, relaxed); \
		do __CPROVER_assigns(ov, nv, _result, *_p, __verif_n, __CPROVER_object_whole(__verif_ov), __CPROVER_object_whole(__verif_nv), __CPROVER_object_whole(__verif_p)) __CPROVER_loop_invariant(__verif_n == __CPROVER_loop_entry(__verif_n) && __verif_ov[0] == __CPROVER_loop_entry(__verif_ov[0]) && __verif_ov[1] == __CPROVER_loop_entry(__verif_ov[1]) && __verif_ov[2] == __CPROVER_loop_entry(__verif_ov[2]) && __verif_ov[3] == __CPROVER_loop_entry(__verif_ov[3]) && __verif_nv[0] == __CPROVER_loop_entry(__verif_nv[0]) && __verif_nv[1] == __CPROVER_loop_entry(__verif_nv[1]) && __verif_nv[2] == __CPROVER_loop_entry(__verif_nv[2]) && __verif_nv[3] == __CPROVER_loop_entry(__verif_nv[3]) && __verif_p[0] == __CPROVER_loop_entry(__verif_p[0]) && __verif_p[1] == __CPROVER_loop_entry(__verif_p[1]) && __verif_p[2] == __CPROVER_loop_entry(__verif_p[2]) && __verif_p[3] == __CPROVER_loop_entry(__verif_p[3])) { \
			__VA_ARGS__; \
			_result = os_atomic_cmpxchgvw(_p, ov, nv, &ov, m); \
		} while (__builtin_expect(!_result,0)); \
		_result; \
	})
#define os_atomic_rmw_loop2o(p, f, ov, nv, m, ...) os_atomic_rmw_loop(&(p)->f, ov, nv, m, __VA_ARGS__)
#define os_atomic_rmw_loop_give_up_with_fence(m, expr) ({ os_atomic_thread_fence(m); expr; __builtin_unreachable(); })
#define os_atomic_rmw_loop_give_up(expr) os_atomic_rmw_loop_give_up_with_fence(relaxed, expr)
#endif
