#!/usr/bin/env python3
# probe: R-apply lowering of dispatch_data_apply(E, ^(P){B}) in preprocessed text
import re,sys
s=open(sys.argv[1]).read()
def match(s,i,o,c):
    d=0
    while True:
        ch=s[i]
        if ch==o:d+=1
        elif ch==c:
            d-=1
            if d==0:return i
        elif ch=='"':
            i+=1
            while s[i]!='"':
                if s[i]=='\\':i+=1
                i+=1
        elif ch=="'":
            i+=1
            while s[i]!="'":
                if s[i]=='\\':i+=1
                i+=1
        i+=1
out=[];pos=0;n=0
for m in re.finditer(r'\bdispatch_data_apply\s*\(',s):
    st=m.start()
    if st<pos: continue
    op=m.end()-1
    cl=match(s,op,'(',')')
    inner=s[op+1:cl]
    k=inner.find('^')
    if k<0: continue   # not a literal (declaration or plain call)
    # first arg
    E=inner[:k].rstrip().rstrip(',').strip()
    rest=inner[k+1:].lstrip()
    if not rest.startswith('('): continue
    pe=match(rest,0,'(',')')
    params=rest[1:pe]
    body_start=rest.index('{',pe)
    be=match(rest,body_start,'{','}')
    body=rest[body_start+1:be]
    n+=1
    # split params
    ps=[];d=0;cur=''
    for ch in params:
        if ch=='(':d+=1
        if ch==')':d-=1
        if ch==',' and d==0: ps.append(cur);cur=''
        else: cur+=ch
    ps.append(cur)
    decls=[];names=[]
    for p in ps:
        p=re.sub(r'__attribute__\s*\(\(.*?\)\)','',p).strip()
        nm=re.findall(r'[A-Za-z_]\w*',p)[-1]
        decls.append(p+';');names.append(nm)
    body2=re.sub(r'\breturn\s*([^;]*);', lambda mm: '{ __vr_%d = (%s); goto __verif_blk_end_%d; }'%(n,mm.group(1),n), body)
    rep=('({ _Bool __vr_%d = 1; size_t __vn_%d = __verif_region_count(%s); size_t __vk_%d; '
         'for (__vk_%d = 0; __vk_%d < __vn_%d && __vr_%d; __vk_%d++) { %s '
         '__verif_region_get(%s, __vk_%d, &%s); { %s } __verif_blk_end_%d: ; } __vr_%d; })')%(
         n,n,E,n,n,n,n,n,n,' '.join(decls),E,n,', &'.join(names),body2,n,n)
    out.append(s[pos:st]);out.append(rep);pos=cl+1
out.append(s[pos:])
open(sys.argv[2],'w').write(''.join(out))
sys.stderr.write('R-apply fired %d times\n'%n)
