#include <dispatch/dispatch.h>
#include <sys/mman.h>
#include <stdio.h>
#include <string.h>
#include <unistd.h>
int main(void) {
	size_t sz = 4096;
	char *p = mmap(NULL, sz, PROT_READ|PROT_WRITE, MAP_PRIVATE|MAP_ANONYMOUS, -1, 0);
	memset(p, 'x', sz);
	dispatch_data_t d = dispatch_data_create(p, sz, NULL, DISPATCH_DATA_DESTRUCTOR_MUNMAP);
	printf("size=%zu\n", dispatch_data_get_size(d));
	dispatch_release(d);
	sleep(1);
	/* after the last release the mapping must be gone (munmap ran exactly once) */
	unsigned char vec;
	int r = mincore(p, sz, &vec);
	printf("mincore after release: %d (expected -1/ENOMEM: unmapped)\n", r);
	return r == -1 ? 0 : 1;
}
