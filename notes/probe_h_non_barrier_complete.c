extern int __VERIF_HARNESS_BEGIN;
_Bool __verif_interference;
unsigned long long __verif_n, __verif_ov[4], __verif_nv[4]; const volatile void *__verif_p[4];
void __verif_commit(const volatile void *p, unsigned long long ov, unsigned long long nv){
  if(__verif_n<4){__verif_p[__verif_n]=p;__verif_ov[__verif_n]=ov;__verif_nv[__verif_n]=nv;} __verif_n++; }
void __verif_rely(const volatile void *p, unsigned long long *v){ }
#define OV0 __verif_ov[0]
#define NV0 __verif_nv[0]
unsigned g_barrier_complete, g_push, g_release;
static void _dispatch_lane_barrier_complete(dispatch_lane_class_t dqu, dispatch_qos_t qos, dispatch_wakeup_flags_t flags){ g_barrier_complete++; }
static void stub_push(dispatch_queue_class_t dq, dispatch_object_t dou, dispatch_qos_t qos){ g_push++; }
void _os_object_release_internal_n(_os_object_t o, uint16_t n){ g_release++; }
void harness(void){
  struct dispatch_lane_s dqs; struct dispatch_lane_s tq; struct dispatch_lane_vtable_s vt; void (**pp)(dispatch_queue_class_t, dispatch_object_t, dispatch_qos_t) = (void*)&vt._os_obj_vtable.dq_push; *pp = stub_push;
  dispatch_lane_t dq=&dqs; dispatch_wakeup_flags_t flags;
  __CPROVER_assume(dq->dq_width>=1 && dq->dq_width<=DISPATCH_QUEUE_WIDTH_MAX);
  dq->do_targetq=(dispatch_queue_t)&tq; tq.do_vtable=&vt;
  __CPROVER_assume(dq->do_ref_cnt>10 && dq->do_ref_cnt < 1000);
  __verif_interference = 1; __verif_n=0; g_barrier_complete=g_push=g_release=0; __CPROVER_assume(__dispatch_tsd.tid > 0 && __dispatch_tsd.tid <= 0x3fffffff);
  _dispatch_lane_non_barrier_complete(dq, flags);
  __CPROVER_assert(__verif_p[0]==&dq->dq_state,"first commit on dq_state");
  /* reader gives back exactly one width unit */
  uint64_t base = OV0 - DISPATCH_QUEUE_WIDTH_INTERVAL;
  __CPROVER_assert(NV0==base || NV0==(base|DISPATCH_QUEUE_DIRTY) || NV0==(base|DISPATCH_QUEUE_ENQUEUED) || (NV0 & DISPATCH_QUEUE_IN_BARRIER),"allowed transitions");
  __CPROVER_assert(((NV0 & DISPATCH_QUEUE_IN_BARRIER) && !(OV0 & DISPATCH_QUEUE_IN_BARRIER)) == (g_barrier_complete==1),"took barrier <=> barrier_complete called");
  __CPROVER_assert((OV0 & DISPATCH_QUEUE_DRAIN_OWNER_MASK) ==> (NV0 & DISPATCH_QUEUE_DIRTY),"locked => set DIRTY so the drainer re-evaluates");
  __CPROVER_assert(((NV0 ^ OV0) & DISPATCH_QUEUE_ENQUEUED) && !((NV0^OV0)&DISPATCH_QUEUE_IN_BARRIER) ==> g_push==1,"ENQUEUED set => pushed to target");
  __CPROVER_assert(g_push + g_barrier_complete <= 1,"at most one continuation");
}
