#!/bin/sh
# pp.sh file.c out.i [extra flags]
src=$1; out=$2; shift 2
clang-16 -DDISPATCH_USE_DTRACE=0 -DHAVE_CONFIG_H -D_GNU_SOURCE=1 -Ddispatch_EXPORTS -DNDEBUG -std=gnu11 -I/repo/_build -I/repo -I/repo/src -I/repo/_build/src -I/repo/private -I/repo/src/BlocksRuntime -D_Nullable= -D_Nonnull= -D_Null_unspecified= -fblocks -fgnuc-version=12.2.0 "$@" -E -P $src -o $out.tmp && sed -E 's/\(\^/(*/g' $out.tmp > $out && rm $out.tmp
