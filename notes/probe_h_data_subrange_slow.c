extern int __VERIF_HARNESS_BEGIN;
_Bool __verif_interference;
void __verif_commit(const volatile void *p, unsigned long long ov, unsigned long long nv){ }
void __verif_rely(const volatile void *p, unsigned long long *v){ }
#define MAXREC 3
unsigned g_retain;
void dispatch_retain(dispatch_object_t o){ g_retain++; }
struct big { struct dispatch_data_s h; range_record r[MAXREC]; };
static struct big in_obj, out_obj[2]; static unsigned n_out;
static struct dispatch_data_s leaves[MAXREC];
void *_dispatch_object_alloc(const void *vtable, size_t size){ __CPROVER_assert(size<=sizeof(struct big),"alloc bound"); __CPROVER_assert(n_out<2,"allocs"); return &out_obj[n_out++]; }
void *memcpy(void *d, const void *s, size_t n){ __CPROVER_assert(n % sizeof(range_record)==0,"record copy"); range_record *dr=d; const range_record *sr=s; for(size_t i=0;i<n/sizeof(range_record);i++) dr[i]=sr[i]; return d; }
void harness(void){
  __CPROVER_havoc_object(&in_obj); __CPROVER_havoc_object(leaves);
  size_t n; __CPROVER_assume(n>=2 && n<=MAXREC);
  dispatch_data_t d=&in_obj.h; d->num_records=n; d->buf=0; size_t tot=0; n_out=0;
  for(size_t i=0;i<MAXREC;i++){ leaves[i].num_records=0; __CPROVER_assume(leaves[i].size>0 && leaves[i].size<(1ul<<40)); if(i<n){ in_obj.r[i].data_object=&leaves[i]; __CPROVER_assume(in_obj.r[i].length>0 && in_obj.r[i].from<leaves[i].size && in_obj.r[i].length<=leaves[i].size-in_obj.r[i].from); tot+=in_obj.r[i].length; } }
  d->size=tot; size_t off,len;
  dispatch_data_t r = dispatch_data_create_subrange(d, off, len);
  size_t explen = off>=d->size ? 0 : (len > d->size-off ? d->size-off : len);
  __CPROVER_assert(r->size==explen || (explen==0 && r==dispatch_data_empty),"size is clamped slice"); __CPROVER_assert(0,"reach");
}
