
/* Define if building pthread work queues from source */
#define DISPATCH_USE_INTERNAL_WORKQUEUE 1

/* Enable usage of thread local storage via _Thread_local */
#define DISPATCH_USE_THREAD_LOCAL_STORAGE 1

/* Define to 1 if you have the declaration of `CLOCK_MONOTONIC', and to 0 if
   you don't. */
#define HAVE_DECL_CLOCK_MONOTONIC 1

/* Define to 1 if you have the declaration of `CLOCK_REALTIME', and to 0 if
   you don't. */
#define HAVE_DECL_CLOCK_REALTIME 1

/* Define to 1 if you have the declaration of `CLOCK_UPTIME', and to 0 if you
   don't. */
#define HAVE_DECL_CLOCK_UPTIME 0

/* Define to 1 if you have the declaration of `CLOCK_UPTIME_FAST', and to 0 if
   you don't. */
#define HAVE_DECL_CLOCK_UPTIME_FAST 0

/* Define to 1 if you have the declaration of `CLOCK_MONOTONIC_COARSE', and to
   0 if you don't. */
#define HAVE_CLOCK_MONOTONIC_COARSE 0

/* Define to 1 if you have the declaration of `FD_COPY', and to 0 if you
   don't. */
#define HAVE_DECL_FD_COPY 0

/* Define to 1 if you have the declaration of `NOTE_LOWAT', and to 0 if you
   don't. */
#define HAVE_DECL_NOTE_LOWAT 0

/* Define to 1 if you have the declaration of `NOTE_NONE', and to 0 if you
   don't. */
#define HAVE_DECL_NOTE_NONE 0

/* Define to 1 if you have the declaration of `NOTE_REAP', and to 0 if you
   don't. */
#define HAVE_DECL_NOTE_REAP 0

/* Define to 1 if you have the declaration of `NOTE_REVOKE', and to 0 if you
   don't. */
#define HAVE_DECL_NOTE_REVOKE 0

/* Define to 1 if you have the declaration of `NOTE_SIGNAL', and to 0 if you
   don't. */
#define HAVE_DECL_NOTE_SIGNAL 0

/* Define to 1 if you have the declaration of `POSIX_SPAWN_START_SUSPENDED',
   and to 0 if you don't. */
#define HAVE_DECL_POSIX_SPAWN_START_SUSPENDED 0

/* Define to 1 if you have the declaration of `program_invocation_short_name',
   and to 0 if you don't. */
#define HAVE_DECL_PROGRAM_INVOCATION_SHORT_NAME 1

/* Define to 1 if you have the declaration of `SIGEMT', and to 0 if you don't.
   */
#define HAVE_DECL_SIGEMT 0

/* Define to 1 if you have the declaration of `VQ_DESIRED_DISK', and to 0 if
   you don't. */
#define HAVE_DECL_VQ_DESIRED_DISK 0

/* Define to 1 if you have the declaration of `VQ_NEARLOWDISK', and to 0 if
   you don't. */
#define HAVE_DECL_VQ_NEARLOWDISK 0

/* Define to 1 if you have the declaration of `VQ_QUOTA', and to 0 if you
   don't. */
#define HAVE_DECL_VQ_QUOTA 0

/* Define to 1 if you have the declaration of `VQ_UPDATE', and to 0 if you
   don't. */
#define HAVE_DECL_VQ_UPDATE 0

/* Define to 1 if you have the declaration of `VQ_VERYLOWDISK', and to 0 if
   you don't. */
#define HAVE_DECL_VQ_VERYLOWDISK 0

/* Define to 1 if you have the declaration of `VQ_FREE_SPACE_CHANGE', and to 0 if
   you don't. */
#define HAVE_DECL_VQ_FREE_SPACE_CHANGE 0

/* Define to 1 if you have the <dlfcn.h> header file. */
#define HAVE_DLFCN_H 1

/* Define to 1 if you have the <fcntl.h> header file. */
#define HAVE_FCNTL_H 1

/* Define to 1 if you have the `getprogname' function. */
#define HAVE_GETPROGNAME 0

/* Define to 1 if you have the <inttypes.h> header file. */
#define HAVE_INTTYPES_H 1

/* Define if Apple leaks program is present */
/* #undef HAVE_LEAKS */

/* Define to 1 if you have the <libkern/OSAtomic.h> header file. */
/* #undef HAVE_LIBKERN_OSATOMIC_H */

/* Define to 1 if you have the <libkern/OSCrossEndian.h> header file. */
/* #undef HAVE_LIBKERN_OSCROSSENDIAN_H */

/* Define to 1 if you have the <libproc_internal.h> header file. */
/* #undef HAVE_LIBPROC_INTERNAL_H */

/* Define if mach is present */
/* #undef HAVE_MACH */

/* Define to 1 if you have the `mach_absolute_time' function. */
/* #undef HAVE_MACH_ABSOLUTE_TIME */

/* Define to 1 if you have the `mach_approximate_time' function. */
/* #undef HAVE_MACH_APPROXIMATE_TIME */

/* Define to 1 if you have the `mach_port_construct' function. */
/* #undef HAVE_MACH_PORT_CONSTRUCT */

/* Define to 1 if you have the `malloc_create_zone' function. */
/* #undef HAVE_MALLOC_CREATE_ZONE */

/* Define to 1 if you have the <malloc/malloc.h> header file. */
/* #undef HAVE_MALLOC_MALLOC_H */

/* Define to 1 if you have the <memory.h> header file. */
#define HAVE_MEMORY_H 1

/* Define if __builtin_trap marked noreturn */
#define HAVE_NORETURN_BUILTIN_TRAP 1

/* Define if you have the Objective-C runtime */
/* #undef HAVE_OBJC */

/* Define to 1 if you have the `posix_fadvise' function. */
#define HAVE_POSIX_FADVISE

/* Define to 1 if you have the `posix_spawnp' function. */
#define HAVE_POSIX_SPAWNP

/* Define to 1 if you have the `pthread_key_init_np' function. */
/* #undef HAVE_PTHREAD_KEY_INIT_NP */

/* Define to 1 if you have the `pthread_attr_setcpupercent_np' function. */
/* #undef HAVE_PTHREAD_ATTR_SETCPUPERCENT_NP */

/* Define to 1 if you have the <pthread_machdep.h> header file. */
/* #undef HAVE_PTHREAD_MACHDEP_H */

/* Define to 1 if you have the `pthread_main_np' function. */
#define HAVE_PTHREAD_MAIN_NP 0

/* Define to 1 if you have the `pthread_yield_np' function. */
#define HAVE_PTHREAD_YIELD_NP 0

/* Define to 1 if you have the <pthread_np.h> header file. */
#define HAVE_PTHREAD_NP_H 0

/* Define to 1 if you have the <pthread/qos.h> header file. */
/* #undef HAVE_PTHREAD_QOS_H */

/* Define if pthread work queues are present */
#define HAVE_PTHREAD_WORKQUEUES 0

/* Define to 1 if you have the <pthread_workqueue.h> header file. */
/* #undef HAVE_PTHREAD_WORKQUEUE_H */

/* Define to 1 if you have the <pthread/workqueue_private.h> header file. */
/* #undef HAVE_PTHREAD_WORKQUEUE_PRIVATE_H */

/* Define to 1 if you have the <stdint.h> header file. */
#define HAVE_STDINT_H 1

/* Define to 1 if you have the <stdlib.h> header file. */
#define HAVE_STDLIB_H 1

/* Define to 1 if you have the <strings.h> header file. */
#define HAVE_STRINGS_H 1

/* Define to 1 if you have the <string.h> header file. */
#define HAVE_STRING_H 1

/* Define to 1 if you have the `strlcpy' function. */
#define HAVE_STRLCPY 0

/* Define if building for Swift */
#undef HAVE_SWIFT

/* Define to 1 if you have the `sysconf' function. */
#define HAVE_SYSCONF 1

/* Define to 1 if you have the <sys/guarded.h> header file. */
/* #undef HAVE_SYS_GUARDED_H */

/* Define to 1 if you have the <sys/stat.h> header file. */
#define HAVE_SYS_STAT_H 1

/* Define to 1 if you have the <sys/types.h> header file. */
#define HAVE_SYS_TYPES_H 1

/* Define to 1 if you have the <TargetConditionals.h> header file. */
/* #undef HAVE_TARGETCONDITIONALS_H */

/* Define to 1 if you have the `_pthread_workqueue_init' function. */
/* #undef HAVE__PTHREAD_WORKQUEUE_INIT */

/* Define to use non-portable pthread TSD optimizations for Mac OS X) */
/* #undef USE_APPLE_TSD_OPTIMIZATIONS */

/* Define to tag libdispatch_init as a constructor */
#define USE_LIBDISPATCH_INIT_CONSTRUCTOR 1

/* Define to use Mach semaphores */
/* #undef USE_MACH_SEM */

/* Define to use POSIX semaphores */
#define USE_POSIX_SEM 1

/* Enable extensions on AIX 3, Interix.  */
#ifndef _ALL_SOURCE
#define _ALL_SOURCE 0
#endif
/* Enable GNU extensions on systems that have them.  */
#ifndef _GNU_SOURCE
#define _GNU_SOURCE
#endif
/* Enable threading extensions on Solaris.  */
#ifndef _POSIX_PTHREAD_SEMANTICS
#define _POSIX_PTHREAD_SEMANTICS 0
#endif
/* Enable extensions on HP NonStop.  */
#ifndef _TANDEM_SOURCE
#define _TANDEM_SOURCE 0
#endif
/* Enable general extensions on Solaris.  */
#ifndef __EXTENSIONS__
#define __EXTENSIONS__ 0
#endif


/* Version number of package */
#define VERSION "1.3"

/* Define to 1 if on MINIX. */
/* #undef _MINIX */

/* Define to 2 if the system does not provide POSIX.1 features except with
   this defined. */
/* #undef _POSIX_1_SOURCE */

/* Define to 1 if you need to in order for `stat' and other things to work. */
/* #undef _POSIX_SOURCE */

/* Define if using Darwin $NOCANCEL */
/* #undef __DARWIN_NON_CANCELABLE */
