/* native replay runtime: feeds the verifier's counterexample (the sequence of
 * nondeterministic values, in execution order) to the same extracted code */
#include <stdio.h>
#include <stdlib.h>
#include <string.h>
static unsigned long long *__vr_script; static size_t __vr_len, __vr_pos;
unsigned long long __verif_nd(void)
{
	if (__vr_pos < __vr_len) return __vr_script[__vr_pos++];
	__vr_pos++;
	return 0; /* script exhausted: the verifier did not constrain further values */
}
static int __vr_failed;
void __verif_native_fail(const char *what, const char *name)
{
	printf("REPLAY-FAIL kind=%s name=%s nd_used=%zu/%zu\n", what, name, __vr_pos, __vr_len);
	fflush(stdout);
	if (strcmp(what, "postcondition") == 0) { __vr_failed = 1; return; } /* evaluate the other clauses too */
	exit(strcmp(what, "assume") == 0 ? 3 : (strcmp(what, "crash") == 0 ? 4 : 1));
}
void harness(void);
int main(int argc, char **argv)
{
	if (argc > 1) {
		FILE *f = fopen(argv[1], "r");
		if (!f) { perror("script"); return 2; }
		size_t cap = 1024; __vr_script = malloc(cap * sizeof(*__vr_script));
		unsigned long long v;
		while (fscanf(f, "%llu", &v) == 1) {
			if (__vr_len == cap) { cap *= 2; __vr_script = realloc(__vr_script, cap * sizeof(*__vr_script)); }
			__vr_script[__vr_len++] = v;
		}
		fclose(f);
	}
	VERIF_ENTRY();
	if (__vr_failed) return 1;
	printf("REPLAY-OK nd_used=%zu/%zu\n", __vr_pos, __vr_len);
	return 0;
}
