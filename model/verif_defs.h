/* definitions of the ghost state (included last in every wrapper TU) */
struct __verif_ev __verif_log[VERIF_LOG_CAP];
unsigned __verif_n;
_Bool __verif_crashed;
_Bool __verif_crash_is_bug;
unsigned long long __verif_last_load;
const volatile void *__verif_last_load_p;
int __verif_last_load_mo;
const volatile void *__verif_ptrloc; void *__verif_ptrobj; unsigned long long __verif_ptralt;
