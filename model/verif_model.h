/*
 * verif_model.h -- verification model pre-included (-include) in front of the
 * real libdispatch translation unit.
 *
 *  1. replaces src/shims/atomic.h (src/shims.h: #ifndef __OS_INTERNAL_ATOMIC__)
 *     by a thread-modular model: loads return arbitrary values (filtered by
 *     the per-harness rely __VERIF_RELY), every successful read-modify-write
 *     is ONE logged commit (location, old, new, memory order) in a ghost log;
 *  2. ghost event log for call-outs, crash paths;
 *  3. contract macros that expand to CBMC code contracts (default) or to a
 *     native checker function (-DVERIF_NATIVE: replay of counterexamples on the
 *     same extracted code compiled by clang).
 *
 * Two modes of the atomics:
 *   interference (default)  : loads are nondeterministic
 *   -DVERIF_SEQ             : sequential semantics (loads read memory), used
 *                             by the data-structure properties (C11-C13,C18,C20)
 */
#ifndef __VERIF_MODEL_H__
#define __VERIF_MODEL_H__ 1
#define __OS_INTERNAL_ATOMIC__ 1
#define __DISPATCH_SHIMS_ATOMIC__ 1

#include <stddef.h>
#include <stdint.h>
#include <stdbool.h>

/* ------------------------------------------------------------------ */
/* memory orders (tokens of the os_atomic_* macros)                     */
enum {
	VMO_relaxed = 0, VMO_consume = 1, VMO_acquire = 2, VMO_release = 3,
	VMO_acq_rel = 4, VMO_seq_cst = 5, VMO_ordered = 5, VMO_dependency = 6,
};
#define VMO_IS_REL(m) ((m) == VMO_release || (m) == VMO_acq_rel || (m) == VMO_seq_cst)
#define VMO_IS_ACQ(m) ((m) == VMO_acquire || (m) == VMO_acq_rel || (m) == VMO_seq_cst || (m) == VMO_dependency)
/* kept for code that names them directly */
#define memory_order_ordered    memory_order_seq_cst
#define memory_order_dependency memory_order_acquire

/* ------------------------------------------------------------------ */
/* ghost log                                                            */
enum {
	EV_NONE = 0,
	EV_COMMIT,        /* successful atomic write: p, a=old, b=new, mo       */
	EV_LOAD,          /* atomic load with order != relaxed: p, a=value, mo  */
	EV_FENCE,         /* thread fence: mo                                   */
	EV_CALLOUT,       /* client function called: a=ctxt/arg, b=extra        */
	EV_WAKEUP,        /* dx_wakeup / _dispatch_queue_wakeup: a=flags        */
	EV_PUSH,          /* dx_push to a (target) queue: p=queue a=item        */
	EV_KWAIT,         /* kernel wait (futex/sem/thread event): p=addr       */
	EV_KWAKE,         /* kernel wake: p=addr a=count                        */
	EV_RETAIN,        /* reference taken: p=obj a=n                         */
	EV_RELEASE,       /* reference dropped: p=obj a=n                       */
	EV_CALL,          /* other stubbed internal call: a=id b=arg            */
	EV_FREE,
};
#ifndef VERIF_LOG_CAP
#define VERIF_LOG_CAP 12
#endif
struct __verif_ev {
	int kind; int mo;
	const volatile void *p;
	unsigned long long a, b;
};
extern struct __verif_ev __verif_log[VERIF_LOG_CAP];
extern unsigned __verif_n;          /* number of events (may exceed CAP: overflow is an obligation) */
extern _Bool __verif_crashed;       /* a crash path (__builtin_trap) was entered */
extern _Bool __verif_crash_is_bug;  /* harness: inputs are valid, crash must be unreachable */
extern unsigned long long __verif_last_load;     /* value returned by the most recent atomic load */
extern const volatile void *__verif_last_load_p; /* ... and its location */
extern int __verif_last_load_mo;                 /* ... and its memory order (-1: the load half of an RMW / store) */
extern const volatile void *__verif_ptrloc; extern void *__verif_ptrobj; extern unsigned long long __verif_ptralt;

#define VERIF_GHOST  __verif_n, __CPROVER_object_whole(__verif_log), __verif_crashed, __verif_last_load, __verif_last_load_p, __verif_last_load_mo
#define LOGK(i) (__verif_log[i].kind)
#define LOGP(i) (__verif_log[i].p)
#define LOGA(i) (__verif_log[i].a)
#define LOGB(i) (__verif_log[i].b)
#define LOGM(i) (__verif_log[i].mo)
#define IS_COMMIT(i, ptr) (LOGK(i) == EV_COMMIT && LOGP(i) == (const volatile void *)(ptr))
#define VIMPL(a, b) (!(a) || (b))
#define LAST (__verif_n - 1)

/* ------------------------------------------------------------------ */
#ifdef VERIF_NATIVE
#include <stdio.h>
#include <stdlib.h>
unsigned long long __verif_nd(void);                 /* next scripted value */
void __verif_native_fail(const char *what, const char *name);
#define __CPROVER_assume(c) do { if (!(c)) __verif_native_fail("assume", #c); } while (0)
#define __CPROVER_assert(c, msg) do { if (!(c)) __verif_native_fail("assert", msg); } while (0)
#define __CPROVER_cover(c) ((void)0)
#define __CPROVER_r_ok(p, n) 1
#define __CPROVER_w_ok(p, n) 1
#define __CPROVER_rw_ok(p, n) 1
#define __CPROVER_loop_invariant(...)
#define __CPROVER_decreases(...)
#define __VERIF_LOOP_ASSIGNS(...)
#define __VERIF_RMW_EXTRA
#else
unsigned long long nondet_ull(void);
static inline unsigned long long __verif_nd(void)
{
	unsigned long long __verif_nd_v = nondet_ull();
	return __verif_nd_v;
}
#define __VERIF_LOOP_ASSIGNS(...) __CPROVER_assigns(__VA_ARGS__)
#endif

/* per-harness rely: what the environment may NOT store to *p (default: anything) */
#ifndef __VERIF_RELY
#define __VERIF_RELY(p, v) 1
#endif

static inline void __verif_event(int kind, int mo, const volatile void *p,
		unsigned long long a, unsigned long long b)
{
	if (__verif_n < VERIF_LOG_CAP) {
		__verif_log[__verif_n].kind = kind;
		__verif_log[__verif_n].mo = mo;
		__verif_log[__verif_n].p = p;
		__verif_log[__verif_n].a = a;
		__verif_log[__verif_n].b = b;
	}
	if (__verif_n < 0x7fffffffu) __verif_n++; /* saturating: a loop that logs for ever cannot wrap onto entry 0 */
}
/* per-harness guarantee: checked at EVERY commit (also inside loops whose log overflows):
 * what this function may do to *p, as a predicate over (p, old, new, order) */
#ifndef __VERIF_GUARANTEE
#define __VERIF_GUARANTEE(p, ov, nv, mo) 1
#endif
#define __verif_commit(p, ov, nv, mo) ({ \
		VERIF_ASSERT(guarantee_at_every_commit, __VERIF_GUARANTEE((p), (unsigned long long)(ov), (unsigned long long)(nv), (mo))); \
		__verif_event(EV_COMMIT, (mo), (p), (unsigned long long)(ov), (unsigned long long)(nv)); })

static inline void __verif_trap(void)
{
	__verif_crashed = 1;
#ifndef VERIF_NATIVE
	__CPROVER_assert(!__verif_crash_is_bug, "crash path reached on valid input");
	__CPROVER_assume(0);
#else
	if (__verif_crash_is_bug) __verif_native_fail("assert", "crash path reached on valid input");
	__verif_native_fail("crash", "crash path (path ends)");
#endif
}

/* unqualified type of *p (drops volatile so model temporaries are not
 * havocked by goto-instrument --nondet-volatile) */
#define _os_atomic_basetypeof(p) __typeof__(({ __typeof__(*(p)) __vt; __vt; }))
#define os_atomic(type) type

#ifdef VERIF_SEQ
#define __VERIF_LOADVAL(p) ((_os_atomic_basetypeof(p))*(p))
#define __VERIF_SET_LOAD_MO(m) ((void)0)
#else
#define __VERIF_SET_LOAD_MO(m) (__verif_last_load_mo = (m))
/* pointer-valued shared location (e.g. an MPSC tail): the harness may declare that it holds NULL
 * or one valid node; the loaded value is then that object's pointer (a pointer forged from an
 * integer has no object identity in CBMC) */
/* __verif_ptralt (optional): a third, non-dereferenceable marker value the location may hold (e.g. the root queue MEDIATOR) */
#define __VERIF_PTRFIX(p, v) ((const volatile void *)(p) == __verif_ptrloc && __verif_ptrloc != 0 ? \
		((__verif_ptralt != 0 && ((unsigned long long)(v) & 3) == 2) ? (__typeof__(v))__verif_ptralt : \
		 ((unsigned long long)(v) & 1) == 0 ? (__typeof__(v))0 : (__typeof__(v))__verif_ptrobj) : (v))
#define __VERIF_LOADVAL(p) ({ \
		_os_atomic_basetypeof(p) __vlv = (_os_atomic_basetypeof(p))__verif_nd(); \
		__vlv = __VERIF_PTRFIX((p), __vlv); \
		__CPROVER_assume(__VERIF_RELY((p), __vlv)); \
		__verif_last_load = (unsigned long long)__vlv; __verif_last_load_p = (p); __verif_last_load_mo = -1; \
		__vlv; })
#endif

/* the location expression is evaluated ONCE into a local pointer, as in the real macros (CBMC 6.11 also mis-resolves a
 * doubly indirect volatile location such as *(&ds->ds_refs->ds_handler[k]) when it is dereferenced in place) */
#define os_atomic_load(p, m) ({ \
		__typeof__(p) __vpl = (p); \
		_os_atomic_basetypeof(p) __vl = __VERIF_LOADVAL(__vpl); \
		__VERIF_SET_LOAD_MO(VMO_##m); \
		if (VMO_##m != VMO_relaxed && VMO_##m != VMO_dependency) __verif_event(EV_LOAD, VMO_##m, __vpl, (unsigned long long)__vl, 0); \
		__vl; })
#define os_atomic_store(p, v, m) ({ \
		__typeof__(p) __vps = (p); \
		_os_atomic_basetypeof(p) __vsv = (v); \
		_os_atomic_basetypeof(p) __vso = __VERIF_LOADVAL(__vps); \
		__verif_commit(__vps, __vso, __vsv, VMO_##m); \
		*__vps = __vsv; (void)0; })
#define os_atomic_xchg(p, v, m) ({ \
		__typeof__(p) __vpx = (p); \
		_os_atomic_basetypeof(p) __vxv = (v); \
		_os_atomic_basetypeof(p) __vxo = __VERIF_LOADVAL(__vpx); \
		__verif_commit(__vpx, __vxo, __vxv, VMO_##m); \
		*__vpx = __vxv; __vxo; })
#define os_atomic_cmpxchgv(p, e, v, g, m) ({ \
		__typeof__(p) __vpc = (p); \
		_os_atomic_basetypeof(p) __vce = (e); \
		_os_atomic_basetypeof(p) __vcv = (v); \
		_os_atomic_basetypeof(p) __vco = __VERIF_LOADVAL(__vpc); \
		_Bool __vb = (__vco == __vce); \
		if (__vb) { __verif_commit(__vpc, __vco, __vcv, VMO_##m); *__vpc = __vcv; } \
		*(g) = __vco; __vb; })
#define os_atomic_cmpxchg(p, e, v, m) ({ \
		_os_atomic_basetypeof(p) __vcg; os_atomic_cmpxchgv(p, e, v, &__vcg, m); })
#define os_atomic_cmpxchgvw(p, e, v, g, m) os_atomic_cmpxchgv(p, e, v, g, m)

#define _os_atomic_c11_op(p, v, m, o, op) ({ \
		__typeof__(p) __vpo = (p); \
		_os_atomic_basetypeof(p) __vv = (v); \
		_os_atomic_basetypeof(p) __voo = __VERIF_LOADVAL(__vpo); \
		_os_atomic_basetypeof(p) __vr = (_os_atomic_basetypeof(p))((unsigned long long)__voo op (unsigned long long)__vv); \
		__verif_commit(__vpo, __voo, __vr, VMO_##m); \
		*__vpo = __vr; __vr; })
#define _os_atomic_c11_op_orig(p, v, m, o, op) ({ \
		__typeof__(p) __vpo = (p); \
		_os_atomic_basetypeof(p) __vv = (v); \
		_os_atomic_basetypeof(p) __voo = __VERIF_LOADVAL(__vpo); \
		_os_atomic_basetypeof(p) __vr = (_os_atomic_basetypeof(p))((unsigned long long)__voo op (unsigned long long)__vv); \
		__verif_commit(__vpo, __voo, __vr, VMO_##m); \
		*__vpo = __vr; __voo; })
#define os_atomic_add(p, v, m)      _os_atomic_c11_op((p), (v), m, add, +)
#define os_atomic_add_orig(p, v, m) _os_atomic_c11_op_orig((p), (v), m, add, +)
#define os_atomic_sub(p, v, m)      _os_atomic_c11_op((p), (v), m, sub, -)
#define os_atomic_sub_orig(p, v, m) _os_atomic_c11_op_orig((p), (v), m, sub, -)
#define os_atomic_and(p, v, m)      _os_atomic_c11_op((p), (v), m, and, &)
#define os_atomic_and_orig(p, v, m) _os_atomic_c11_op_orig((p), (v), m, and, &)
#define os_atomic_or(p, v, m)       _os_atomic_c11_op((p), (v), m, or, |)
#define os_atomic_or_orig(p, v, m)  _os_atomic_c11_op_orig((p), (v), m, or, |)
#define os_atomic_xor(p, v, m)      _os_atomic_c11_op((p), (v), m, xor, ^)
#define os_atomic_xor_orig(p, v, m) _os_atomic_c11_op_orig((p), (v), m, xor, ^)

#define os_atomic_force_dependency_on(p, e) (p)
#define os_atomic_load_with_dependency_on(p, e) \
		os_atomic_load(os_atomic_force_dependency_on(p, e), relaxed)
#define os_atomic_load_with_dependency_on2o(p, f, e) \
		os_atomic_load_with_dependency_on(&(p)->f, e)
#define os_atomic_thread_fence(m) ({ if (VMO_##m != VMO_relaxed) __verif_event(EV_FENCE, VMO_##m, 0, 0, 0); })

#define os_atomic_load2o(p, f, m)  os_atomic_load(&(p)->f, m)
#define os_atomic_store2o(p, f, v, m) os_atomic_store(&(p)->f, (v), m)
#define os_atomic_xchg2o(p, f, v, m) os_atomic_xchg(&(p)->f, (v), m)
#define os_atomic_cmpxchg2o(p, f, e, v, m) os_atomic_cmpxchg(&(p)->f, (e), (v), m)
#define os_atomic_cmpxchgv2o(p, f, e, v, g, m) os_atomic_cmpxchgv(&(p)->f, (e), (v), (g), m)
#define os_atomic_cmpxchgvw2o(p, f, e, v, g, m) os_atomic_cmpxchgvw(&(p)->f, (e), (v), (g), m)
#define os_atomic_add2o(p, f, v, m) os_atomic_add(&(p)->f, (v), m)
#define os_atomic_add_orig2o(p, f, v, m) os_atomic_add_orig(&(p)->f, (v), m)
#define os_atomic_sub2o(p, f, v, m) os_atomic_sub(&(p)->f, (v), m)
#define os_atomic_sub_orig2o(p, f, v, m) os_atomic_sub_orig(&(p)->f, (v), m)
#define os_atomic_and2o(p, f, v, m) os_atomic_and(&(p)->f, (v), m)
#define os_atomic_and_orig2o(p, f, v, m) os_atomic_and_orig(&(p)->f, (v), m)
#define os_atomic_or2o(p, f, v, m) os_atomic_or(&(p)->f, (v), m)
#define os_atomic_or_orig2o(p, f, v, m) os_atomic_or_orig(&(p)->f, (v), m)
#define os_atomic_xor2o(p, f, v, m) os_atomic_xor(&(p)->f, (v), m)
#define os_atomic_xor_orig2o(p, f, v, m) os_atomic_xor_orig(&(p)->f, (v), m)
#define os_atomic_inc(p, m) os_atomic_add((p), 1, m)
#define os_atomic_inc_orig(p, m) os_atomic_add_orig((p), 1, m)
#define os_atomic_inc2o(p, f, m) os_atomic_add2o(p, f, 1, m)
#define os_atomic_inc_orig2o(p, f, m) os_atomic_add_orig2o(p, f, 1, m)
#define os_atomic_dec(p, m) os_atomic_sub((p), 1, m)
#define os_atomic_dec_orig(p, m) os_atomic_sub_orig((p), 1, m)
#define os_atomic_dec2o(p, f, m) os_atomic_sub2o(p, f, 1, m)
#define os_atomic_dec_orig2o(p, f, m) os_atomic_sub_orig2o(p, f, 1, m)

/*
 * CAS retry loop.  The body of the real macro is kept verbatim; only the
 * bookkeeping differs: a failed CAS commits nothing, the single successful CAS
 * is logged once, after the loop.  Under interference the loop carries a loop
 * contract (any number of retries, every retry sees an arbitrary value allowed
 * by the rely); loop assigns are inferred by goto-instrument from the body.
 * `break`/`return`/`goto` from os_atomic_rmw_loop_give_up leave without commit.
 */
#ifdef VERIF_SEQ
#define os_atomic_rmw_loop(p, ov, nv, m, ...)  ({ \
		_Bool _result = 0; \
		__typeof__(p) _p = (p); \
		ov = __VERIF_LOADVAL(_p); \
		do { \
			__VA_ARGS__; \
			*_p = nv; _result = 1; \
		} while (0); \
		if (_result) __verif_commit(_p, ov, nv, VMO_##m); \
		_result; \
	})
#else
/* the ghost log is in the loop's write set (give-up paths may commit/call out before
 * leaving the loop) and pinned by the invariant on the retry edge */
#define __VLE(i) (__verif_log[i].kind == __CPROVER_loop_entry(__verif_log[i].kind) && \
		__verif_log[i].mo == __CPROVER_loop_entry(__verif_log[i].mo) && \
		__verif_log[i].p == __CPROVER_loop_entry(__verif_log[i].p) && \
		__verif_log[i].a == __CPROVER_loop_entry(__verif_log[i].a) && \
		__verif_log[i].b == __CPROVER_loop_entry(__verif_log[i].b))
#if VERIF_LOG_CAP == 12
#define __VERIF_LOG_UNCHANGED (__verif_n == __CPROVER_loop_entry(__verif_n) && \
		__verif_crashed == __CPROVER_loop_entry(__verif_crashed) && \
		__VLE(0) && __VLE(1) && __VLE(2) && __VLE(3) && __VLE(4) && __VLE(5) && \
		__VLE(6) && __VLE(7) && __VLE(8) && __VLE(9) && __VLE(10) && __VLE(11))
#elif VERIF_LOG_CAP == 20
#define __VERIF_LOG_UNCHANGED (__verif_n == __CPROVER_loop_entry(__verif_n) && \
		__verif_crashed == __CPROVER_loop_entry(__verif_crashed) && \
		__VLE(0) && __VLE(1) && __VLE(2) && __VLE(3) && __VLE(4) && __VLE(5) && \
		__VLE(6) && __VLE(7) && __VLE(8) && __VLE(9) && __VLE(10) && __VLE(11) && \
		__VLE(12) && __VLE(13) && __VLE(14) && __VLE(15) && __VLE(16) && __VLE(17) && __VLE(18) && __VLE(19))
#else
#error VERIF_LOG_CAP must be 12 or 20
#endif
/* __VERIF_RMW_EXTRA is resolved by the extractor: per-site extra loop assigns
 * (meta "rmw_extra": {"function#k": "a, b"}), default empty */
#define os_atomic_rmw_loop(p, ov, nv, m, ...)  ({ \
		_Bool _result = 0; \
		__typeof__(p) _p = (p); \
		ov = __VERIF_LOADVAL(_p); \
		do __VERIF_LOOP_ASSIGNS(ov, nv, _result, *_p, VERIF_GHOST __VERIF_RMW_EXTRA) \
		__CPROVER_loop_invariant(!_result && __VERIF_LOG_UNCHANGED) { \
			ov = __VERIF_LOADVAL(_p); /* value seen by the previous failed CAS: arbitrary */ \
			__VA_ARGS__; \
			{ _os_atomic_basetypeof(_p) __vcur = __VERIF_LOADVAL(_p); \
			  _result = (__vcur == ov); \
			  if (_result) { *_p = nv; } } \
		} while (__builtin_expect(!_result, 0)); \
		if (_result) __verif_commit(_p, ov, nv, VMO_##m); \
		_result; \
	})
#endif
#define os_atomic_rmw_loop2o(p, f, ov, nv, m, ...) \
		os_atomic_rmw_loop(&(p)->f, ov, nv, m, __VA_ARGS__)
#define os_atomic_rmw_loop_give_up_with_fence(m, expr) \
		({ os_atomic_thread_fence(m); expr; __builtin_unreachable(); })
#define os_atomic_rmw_loop_give_up(expr) \
		os_atomic_rmw_loop_give_up_with_fence(relaxed, expr)

/* ------------------------------------------------------------------ */
/* contract macros                                                      */
#define VERIF_UNPAREN(...) __VA_ARGS__
#if defined(VERIF_PLAIN) && !defined(VERIF_NATIVE)
/* plain mode (bounded stand-ins only): no DFCC instrumentation; the same clauses become
 * assume (requires, before the call) / assert (ensures, after the call); frames are NOT checked */
#define REQ(...) if (__verif_phase == 0) __CPROVER_assume(__VA_ARGS__);
#define ENS(name, ...) if (__verif_phase == 1) __CPROVER_assert((__VA_ARGS__), "VA:" #name);
#define ASG(...)
#define VERIF_CONTRACT(ret, name, params, clauses) \
	static void __verif_chk_##name(int __verif_phase, ret __CPROVER_return_value, VERIF_UNPAREN params) { clauses }
#define VERIF_CONTRACT_VOID(name, params, clauses) \
	static void __verif_chk_##name(int __verif_phase, VERIF_UNPAREN params) { clauses }
#define VERIF_PRE_CALL(name, ...) __verif_chk_##name(0, __VA_ARGS__)
#define VERIF_POST(name, ...) __verif_chk_##name(1, __VA_ARGS__)
#define VERIF_POST_VOID(name, ...) __verif_chk_##name(1, __VA_ARGS__)
#define VERIF_ASSERT(name, ...) __CPROVER_assert((__VA_ARGS__), "VA:" #name)
#define VERIF_CANARY() __CPROVER_assert(0, "CANARY")
#define VERIF_REACH(name, ...) __CPROVER_assert(!(__VA_ARGS__), "REACH:" #name)
#elif !defined(VERIF_NATIVE)
#define VERIF_PRE_CALL(name, ...) ((void)0)
/* __VERIF_NAMED(name, e) is resolved by the extractor (records name -> k-th
 * ensures clause of the function, rewrites to (e)) */
#define REQ(...) __CPROVER_requires(__VA_ARGS__)
#define ENS(name, ...) __CPROVER_ensures(__VERIF_NAMED(name, (__VA_ARGS__)))
#define ASG(...) __CPROVER_assigns(__VA_ARGS__)
#define VERIF_CONTRACT(ret, name, params, clauses) __VERIF_CONTRACT_OF(name) ret name params clauses ;
#define VERIF_CONTRACT_VOID(name, params, clauses) __VERIF_CONTRACT_OF(name) void name params clauses ;
#define VERIF_POST(name, ...) ((void)0)
#define VERIF_POST_VOID(name, ...) ((void)0)
#define VERIF_ASSERT(name, ...) __CPROVER_assert((__VA_ARGS__), "VA:" #name)
/* reachability canary: MUST fail (a harness whose end is unreachable proves nothing) */
#define VERIF_CANARY() __CPROVER_assert(0, "CANARY")
/* premise reachability: MUST fail, i.e. the condition is satisfiable at this point */
#define VERIF_REACH(name, ...) __CPROVER_assert(!(__VA_ARGS__), "REACH:" #name)
#else
#define VERIF_CANARY() ((void)0)
#define VERIF_REACH(name, ...) ((void)0)
#define REQ(...)
#define ENS(name, ...) if (!(__VA_ARGS__)) __verif_native_fail("postcondition", #name);
#define ASG(...)
#define VERIF_CONTRACT(ret, name, params, clauses) \
	static void __verif_post_##name(ret __CPROVER_return_value, VERIF_UNPAREN params) { clauses }
#define VERIF_CONTRACT_VOID(name, params, clauses) \
	static void __verif_post_##name(VERIF_UNPAREN params) { clauses }
#define VERIF_POST(name, ...) __verif_post_##name(__VA_ARGS__)
#define VERIF_POST_VOID(name, ...) __verif_post_##name(__VA_ARGS__)
#define VERIF_PRE_CALL(name, ...) ((void)0)
#define VERIF_ASSERT(name, ...) ({ if (!(__VA_ARGS__)) __verif_native_fail("assert", #name); })
#endif

/* __builtin_assume(e) (DISPATCH_COMPILER_CAN_ASSUME / OS_COMPILER_CAN_ASSUME) is an OPTIMISER hint: real code has undefined
 * behaviour when it is false, it does not make the paths go away.  It is therefore an obligation (assert), never an
 * assumption: as __CPROVER_assume it silently removed exactly the paths on which dispatch_once's inline fast path is wrong. */
#define __verif_compiler_hint(e) VERIF_ASSERT(compiler_hint_holds, (e))

/* side-car loop contract for the k-th loop (for/while/do) of a repository function */
#define VERIF_LOOP_CONTRACT(function, k, ...) __VERIF_LOOPDEF(function, k, __VA_ARGS__)

/* typed nondeterministic inputs, all flowing through __verif_nd() so that a
 * counterexample is a replayable script */
#define ND(type) ((type)__verif_nd())
#define ND_BOOL() ((_Bool)(__verif_nd() & 1))
#define VERIF_GHOST_RESET() do { __verif_ptralt = 0; __verif_n = 0; __verif_crashed = 0; __verif_crash_is_bug = 0; __verif_last_load = 0; __verif_last_load_p = 0; __verif_last_load_mo = -1; } while (0)

#endif /* __VERIF_MODEL_H__ */
