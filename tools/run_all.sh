#!/bin/bash
# run every claimed property's quick check (writes evidence/<id>.json); summary at the end
cd /verif
for p in $(python3 -c "import json;print(' '.join(c['property_id'] for c in json.load(open('MANIFEST.json'))['checks']))"); do
  ./check $p --tier quick "$@" > /tmp/p1/all_$p.log 2>&1; echo "$p exit=$?"
done
