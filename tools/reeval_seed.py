#!/usr/bin/env python3
"""tools/reeval_seed.py <seed-id> <prop> <first-run note> : re-run a property's quick check against an installed seeded change after the
contracts were strengthened, and record the new verdict (and what the first run said) in seeded/<id>/meta.json"""
import sys, os, re, json, subprocess
sid, prop, note = sys.argv[1:4]
d = os.path.join('/verif/seeded', sid)
m = json.load(open(os.path.join(d, 'meta.json')))
r = subprocess.run(['/verif/tools/try_seed.sh', os.path.join(d, 'patch.diff'), prop], capture_output=True, text=True)
caught = [l for l in r.stdout.splitlines() if l.startswith('VIOLATION')]
c = m['check_result']
first = c.get('first_run') or ('%s (./check %s)' % (c['verdict'], m['property']))
if caught:
    c['verdict'] = 'caught after strengthening'
    c['obligations'] = [re.sub(r'.*obligation=(\S+).*', r'\1', l) for l in caught][:6]
    c['cmd'] = './check %s (quick) with patch applied to /repo, then reverted' % prop
    c['first_run'] = first + ': ' + note if note else first
else:
    c['recheck'] = 'still not caught by ./check %s: %s' % (prop, 'undecided' if 'UNDECIDED' in r.stdout else 'missed')
json.dump(m, open(os.path.join(d, 'meta.json'), 'w'), indent=1)
print(sid, prop, c['verdict'], c.get('obligations', [])[:2], c.get('recheck', ''))
