#!/bin/bash
# tools/confirm_seed.sh <worktree> <seed-subdir> : independent confirmation of a seeded change
# (applies, builds, the 22 ctest tests pass, demo fails with the change and passes on /repo's build)
wt=$1; sd=$2; out=$wt/$sd/confirm.log
cd $wt || exit 9
git checkout -q -- src dispatch private os 2>/dev/null
git apply $sd/patch.diff || { echo "APPLY-FAILED" > $out; exit 1; }
{
echo "== build"; cmake -G Ninja -S . -B _build_seed -DCMAKE_C_COMPILER=/usr/bin/clang-16 -DCMAKE_CXX_COMPILER=/usr/bin/clang++-16 -DCMAKE_BUILD_TYPE=RelWithDebInfo -DBUILD_TESTING=ON -DENABLE_SWIFT=OFF >/dev/null 2>&1; cmake --build _build_seed 2>&1 | tail -1
echo "== ctest"; ctest --test-dir $wt/_build_seed -j8 --timeout 900 2>&1 | tail -3
for b in seed orig; do
  if [ $b = seed ]; then bd=$wt/_build_seed; else bd=/repo/_build; fi
  echo "== demo against $b build ($bd)"
  if [ -f $sd/run_demo.sh ]; then
     (cd $sd && timeout 150 bash ./run_demo.sh $bd $( [ -f args.txt ] && cat args.txt ) 2>&1 | tail -4; echo "demo-exit=${PIPESTATUS[0]}")
  else
     clang-16 -fblocks -I$wt $sd/demo.c -o $sd/demo_$b -L$bd -ldispatch -lBlocksRuntime -Wl,-rpath,$bd -lpthread 2>&1 | grep -v warning | head -3
     (timeout 150 $sd/demo_$b 2>&1 | tail -4; echo "demo-exit=${PIPESTATUS[0]}")
  fi
done
} > $out 2>&1
git checkout -q -- src dispatch private os
rm -rf _build_seed $sd/demo_seed $sd/demo_orig
echo done $sd
