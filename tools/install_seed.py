#!/usr/bin/env python3
"""tools/install_seed.py <worktree> <seed-subdir> <prop> <seed-id>
copies a sub-agent's seeded change into /verif/seeded/<seed-id>/ if tools/confirm_seed.sh confirmed it
(applies, builds, 22/22 ctest, demo fails with / passes without), runs the property's check against it
and records the outcome in meta.json"""
import sys, os, re, json, shutil, subprocess
wt, sd, prop, sid = sys.argv[1:5]
src = os.path.join(wt, sd)
log = open(os.path.join(src, 'confirm.log')).read()
ok_tests = '100% tests passed' in log
m = re.findall(r'demo-exit=(\d+)', log)
ok_demo = len(m) == 2 and m[0] != '0' and m[1] == '0'
if not (ok_tests and ok_demo):
    print('NOT CONFIRMED', sid, 'tests', ok_tests, 'demo exits', m); sys.exit(1)
dst = os.path.join('/verif/seeded', sid)
os.makedirs(dst, exist_ok=True)
for f in os.listdir(src):
    if f.startswith('demo_') or f == '_build': continue
    if os.path.isfile(os.path.join(src, f)): shutil.copy(os.path.join(src, f), dst)
r = subprocess.run(['/verif/tools/try_seed.sh', os.path.join(dst, 'patch.diff'), prop], capture_output=True, text=True)
out = r.stdout
caught = [l for l in out.splitlines() if l.startswith('VIOLATION')]
verdict = 'caught' if caught else ('undecided' if 'UNDECIDED' in out else 'missed')
notes = open(os.path.join(src, 'notes.txt')).read() if os.path.exists(os.path.join(src, 'notes.txt')) else ''
meta = dict(seed=sid, property=prop, source='independent sub-agent given only the property text and a scratch worktree',
            needs_to_manifest=(notes[:1500]),
            confirmed=dict(applies=True, builds=True, ctest='22/22 passed with the change', demo_with_change='fails (exit %s)' % m[0], demo_without_change='passes (exit 0) on /repo build',
                           how='tools/confirm_seed.sh in the scratch worktree; log in confirm.log'),
            check_result=dict(cmd='./check %s (quick) with patch applied to /repo, then reverted' % prop, verdict=verdict,
                              obligations=[re.sub(r'.*obligation=(\S+).*', r'\1', l) for l in caught][:6]))
json.dump(meta, open(os.path.join(dst, 'meta.json'), 'w'), indent=1)
print(sid, verdict, meta['check_result']['obligations'][:3])
