#!/usr/bin/env python3
"""regenerate the two generated tables of DESIGN.md (10.4 seed table, 10.8 coverage table) in place"""
import re, subprocess, os, glob, json
V = os.path.dirname(os.path.dirname(os.path.abspath(__file__)))
p = os.path.join(V, 'DESIGN.md'); s = open(p).read()
seed = subprocess.run(['python3', os.path.join(V, 'tools', 'gen_seed_table.py')], capture_output=True, text=True).stdout
cov = subprocess.run(['python3', os.path.join(V, 'tools', 'gen_coverage_table.py')], capture_output=True, text=True).stdout
nseeds = len(glob.glob(os.path.join(V, 'seeded', '*', 'meta.json')))
# 10.4
m = re.search(r'\*\*All \d+ seeds\*\*', s); i = m.start(); j = s.index('### 10.5', i)
k = s.index('| seed | file(s) changed |', i)
head = re.sub(r'All \d+ seeds', 'All %d seeds' % nseeds, s[i:k])
s = s[:i] + head + seed.rstrip('\n') + '\n\n' + s[j:]
# 10.8
i = s.index('### 10.8'); k = s.index('| property | harness |', i)
nfiles = len(glob.glob(os.path.join(V, 'contracts', 'C*', '*.c'))); npairs = sum(1 for l in cov.splitlines() if re.match(r'\| C\d\d \|', l))
pre = re.sub(r'\(\d+ harness files, \d+ property-harness pairs\)', '(%d harness files, %d property-harness pairs)' % (nfiles, npairs), s[i:k])
s = s[:i] + pre + cov.rstrip('\n') + '\n'
open(p, 'w').write(s)
print('seeds', nseeds, 'harness files', nfiles, 'pairs', npairs)
