#!/usr/bin/env python3
"""print the markdown table: property -> harnesses (kind, enforced function, tier) from contracts/*"""
import json, glob, os, re
V = os.path.dirname(os.path.dirname(os.path.abspath(__file__)))
rows = {}
for f in sorted(glob.glob(os.path.join(V, 'contracts', 'C*', '*.c'))):
    t = open(f).read(); m = re.search(r'/\*VERIF\s*(\{.*?\})\s*VERIF\*/', t, re.S)
    if not m: continue
    meta = json.loads(m.group(1))
    if meta.get('disabled'): continue
    name = os.path.basename(f)[:-2]; home = os.path.basename(os.path.dirname(f))
    kind = 'lemma' if meta.get('mode') == 'lemma' or name.startswith('l_') else ('bounded' if meta.get('bounded') else 'contract')
    fn = meta.get('enforce') or ','.join(meta.get('replace', [])) or '-'
    for p in sorted(set([home] + meta.get('props', []))):
        rows.setdefault(p, []).append((name, kind, fn, meta.get('tier', 'quick'), meta['bounded']['what'][:70] if meta.get('bounded') else ''))
print('| property | harness | kind | function under contract | tier |')
print('|---|---|---|---|---|')
for p in sorted(rows):
    for (n, k, fn, tier, what) in sorted(rows[p]):
        print('| %s | %s | %s%s | `%s` | %s |' % (p, n, k, (' (' + what + ')') if what else '', fn, tier))
