#!/usr/bin/env python3
"""print the markdown table of all seeded changes and what the checks made of them (from seeded/*/meta.json)"""
import json, glob, os, re
V = os.path.dirname(os.path.dirname(os.path.abspath(__file__)))
print('| seed | file(s) changed | verdict | first obligation reported |')
print('|---|---|---|---|')
for d in sorted(glob.glob(os.path.join(V, 'seeded', '*'))):
    sid = os.path.basename(d); m = json.load(open(os.path.join(d, 'meta.json'))); c = m['check_result']
    files = sorted(set(re.findall(r'^\+\+\+ b/(\S+)', open(os.path.join(d, 'patch.diff')).read(), re.M)))
    ob = (c.get('obligations') or ['-'])[0]
    print('| %s | %s | %s | `%s` |' % (sid, ', '.join(files), c['verdict'], ob[:110]))
