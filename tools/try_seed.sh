#!/bin/bash
# tools/try_seed.sh <patch.diff> <prop> [<prop>...] : apply a seeded change to /repo, run the checks, undo
p=$1; shift
cd /repo || exit 9
git apply --check "$p" || { echo "patch does not apply"; exit 9; }
git apply "$p"
for prop in "$@"; do
  (cd /verif && ./check $prop --no-evidence 2>&1 | grep -E "^VIOLATION|^UNDECIDED|^C[0-9]+:" | cut -c1-700)
done
git -C /repo checkout -- .
