#!/usr/bin/env python3
"""generate MANIFEST.json from the per-property table below (kept next to the harnesses so
the claims and the code cannot drift apart silently)"""
import json, os, glob, re
VERIF = os.path.dirname(os.path.dirname(os.path.abspath(__file__)))

TECH = "contract-based deductive verification: CBMC 6.11 code contracts (goto-instrument --dfcc --enforce-contract/--replace-call-with-contract/--apply-loop-contracts) on real functions mechanically extracted from /repo on every run"

P = {}
def prop(pid, text, note, design, na=None):
    P[pid] = dict(text=text, note=note, design=design, na=na)

prop('C01', "Per-step hand-shake contracts (proved for all state words, all interleavings of other threads' writes via the interference model): a drainer releases the lock only if DIRTY is clear; push/wakeup/unlock/complete each either re-drive the queue or leave the obligation with a named party. Trace-level liveness is NOT proved.",
     "OS scheduler, thread-pool growth, futex delivery, fairness; composition over all dq_state writers is argued in DESIGN.md 5/C01, not machine-checked; stubs listed in evidence.", "5/C01")
prop('C02', "Contracts on the drain-lock / barrier-sync transitions of dq_state: the lock is only taken from an unowned, unsuspended, barrier-free state; the barrier-sync fast path only from the completely idle state; unlock gives back exactly what was owned; for width 1 every lock is a barrier.",
     "Exclusion is per-transition (guarantee side of rely/guarantee); writers of dq_state not under contract are outside the proof (listed in evidence).", "5/C02")
prop('C03', "Per-level contracts of the target-queue recursion for dispatch_sync and of the retarget precondition (inactive + suspended).",
     "Chain loops are bounded stand-ins; workloop drain internals not covered.", "5/C03")
prop('C04', "Width-accounting contracts: reader fast paths refuse under IN_BARRIER/PENDING_BARRIER/DIRTY/suspension and add exactly one unit; the upgrade to a barrier succeeds iff no other party holds width (under the accounting invariant); last reader takes over for a pending barrier.",
     "Accounting invariant is a rely clause justified by the other contracts of this property; not composed mechanically.", "5/C04")
prop('C05', "Sequencing obligations (client callout before unlock/complete commit) and memory-order obligations (every ownership-releasing commit is release or stronger, every acquiring one acquire or stronger) read from the ghost commit log.",
     "The C11/hardware memory model itself, futex syscalls; only annotations are checked.", "5/C05")
prop('C06', "Suspend/resume/activate transition contracts on dq_state including the side-count spill; every lock/fast-path refuses suspended or inactive states.",
     "Side lock implementation trusted; history-level nesting argued by lemma.", "5/C06")
prop('C07', "dg_state transition contracts for enter/leave/wait/notify/wake plus the generation-carry lemma.",
     "futex wait/wake, notify-list walk bounded.", "5/C07")
prop('C08', "dsema_value contracts for signal/wait/wait_slow (timeout undoes exactly its own decrement or consumes the pending wake) plus permit-conservation lemma.",
     "Kernel semaphore semantics trusted.", "5/C08")
prop('C09', "Once-gate contracts (tryenter CAS from 0 only, broadcast publishes DONE with release and wakes iff waiters, wait returns only after reading DONE) plus the three-state lemma.",
     "futex trusted.", "5/C09")
prop('C10', "dispatch_apply contracts: serial loop invariant (index k called k-th, exactly n calls), index-claim contract of _dispatch_apply_invoke2, width reserve/relinquish arithmetic.",
     "Helper thread scheduling; chain loops bounded.", "5/C10")
prop('C11', "Timer arithmetic contracts (config create, fire only if target <= now, program/delay), heap index algebra; heap operations as bounded stand-in.",
     "compute_missed division clauses undecided (solver limit); kernel timer.", "5/C11")
prop('C12', "Full functional contracts of dispatch_time, dispatch_walltime, _dispatch_timeout and the encode/decode pair over all 2^64 bases x 2^64 deltas (loop-free, complete), plus a monotonicity lemma proved from the contract of dispatch_time.",
     "Clock sources stubbed (arbitrary reading in range); tv_sec*10^9 uses the same compiler builtin in code and spec (multiplier equivalence is beyond SAT).", "5/C12")
prop('C13', "Representation-invariant and byte-view contracts of the dispatch_data operations.",
     "memcpy modelled; allocator; whole-history destructor statement not decided.", "5/C13")
prop('C14', "Per-operation byte-accounting contracts of dispatch I/O.", "kernel I/O; block lowering.", "5/C14")
prop('C15', "Merge/latch step contracts on ds_pending_data and the never-call-out-with-zero obligation.", "handler exclusion is C02 on the source lane.", "5/C15")
prop('C16', "Cancel flag set-once and invoke ordering contracts.", "epoll internals stubbed.", "5/C16")
prop('C17', "Reference-count step contracts (retain/release arithmetic, dispose exactly at -1) and per-function reference balance clauses.",
     "Whole-history lifetime not decidable by per-function contracts.", "5/C17")
prop('C18', "Attribute table bijection over all entries, dispatch_get_global_queue as a total function of its two arguments, specific lookups bounded.",
     "thread-frame discipline on every path not covered.", "5/C18")
prop('C19', "Block-object invoke/cancel/wait/notify contracts on top of the group contracts.", "Blocks runtime / block.cpp out of reach.", "5/C19")
prop('C20', "Codec helper contracts, table inverses, output-buffer safety; round trip on lowered block bodies bounded.", "relies on C13 contracts.", "5/C20")

NA_DEFAULT = "contracts for this property are not written yet in this session (design in DESIGN.md section 5); nothing is claimed until a check exists"

def main():
    checks = []; na = []
    for pid in sorted(P):
        hs = []
        for f in glob.glob(os.path.join(VERIF, 'contracts', 'C*', '*.c')):
            home = os.path.basename(os.path.dirname(f))
            txt = open(f).read()
            m = re.search(r'"props"\s*:\s*\[(.*?)\]', txt)
            props = re.findall(r'"(C\d+)"', m.group(1)) if m else []
            if home == pid or pid in props:
                hs.append(f)
        p = P[pid]
        if p['na']:
            na.append(dict(property_id=pid, reason=p['na'])); continue
        if not hs:
            na.append(dict(property_id=pid, reason=NA_DEFAULT)); continue
        checks.append(dict(
            property_id=pid,
            quick_cmd='./check %s --tier quick' % pid,
            thorough_cmd='./check %s --tier thorough' % pid,
            evidence_file='/verif/evidence/%s.json' % pid,
            replay_cmd_template='./check %s --replay {path}' % pid,
            engine='cbmc-dfcc',
            level_claimed=dict(category='proof', text=p['text'], design_ref='DESIGN.md ' + p['design']),
            level_note=p['note'],
            technique=TECH))
    man = dict(
        version=1,
        setup_cmd='./setup.sh',
        hooks=dict(guard='DISPATCH_VERIF_CONTRACTS', enable='none needed: the verification model is swapped in through the existing #ifndef __OS_INTERNAL_ATOMIC__ in src/shims.h by pre-including /verif/model/verif_model.h; no hook commits in /repo',
                   baseline_off_cmd='cmake --build /repo/_build && ctest --test-dir /repo/_build -j8 --timeout 900',
                   source_commits=[], add_only=True),
        engines=[dict(name='cbmc-dfcc', path='/verif/engine', serves_properties=sorted(c['property_id'] for c in checks),
                      kind_free_text='extractor (clang -E + textual rules + slicer) -> goto-cc -> goto-instrument --dfcc -> cbmc; native replay of counterexamples')],
        checks=checks,
        notes='fix commits in /repo: see known_findings.json (status fixed). Exit codes of ./check: 0 pass, 1 violation, 2 undecided (tool limit/extraction break; never reported as violation).',
        not_applicable=na)
    json.dump(man, open(os.path.join(VERIF, 'MANIFEST.json'), 'w'), indent=1)
    print('claimed:', [c['property_id'] for c in checks]); print('n/a:', [n['property_id'] for n in na])

if __name__ == '__main__':
    main()
