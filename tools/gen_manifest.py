#!/usr/bin/env python3
"""generate MANIFEST.json from the per-property table below (kept next to the harnesses so
the claims and the code cannot drift apart silently)"""
import json, os, glob, re
VERIF = os.path.dirname(os.path.dirname(os.path.abspath(__file__)))

TECH = "contract-based deductive verification: CBMC 6.11 code contracts (goto-instrument --dfcc --enforce-contract/--replace-call-with-contract/--apply-loop-contracts) on real functions mechanically extracted from /repo on every run"

P = {}
def prop(pid, text, note, design, na=None):
    P[pid] = dict(text=text, note=note, design=design, na=na)

prop('C01', "Per-step hand-shake contracts on the real functions, for all state words and all interleavings of other threads' writes (interference model): a drainer never unlocks over an un-acknowledged DIRTY (drain_try_unlock); a refused lock only dequeues (drain_try_lock); a reader giving back width re-drives or hands over (non_barrier_complete, concurrent_push); barrier completion hands off / releases readers / re-drives (lane_barrier_complete); thread requests are accounted exactly (root_queue_poke_slow, 3 loop contracts); resume re-drives (lane_resume); the push that makes a queue non-empty retains before publishing and always wakes it with MAKE_DIRTY (lane_push, lane_push_waiter); a wakeup enqueues-and-pushes exactly when nobody else is responsible and otherwise leaves the obligation with the enqueued item, the lock owner (DIRTY) or resume (queue_wakeup); a barrier owner never unlocks over DIRTY without a re-drive (lane_class_barrier_complete). Liveness over whole traces is NOT proved: the composition over all writers of dq_state is argued in DESIGN.md 5/C01 only.",
     "Root-queue side now under contract too: _dispatch_root_queue_drain_one (no double dequeue via the MEDIATOR exchange, head handed on with one poke, three retry cut points), _dispatch_root_queue_drain, _dispatch_worker_thread (exit re-pokes after giving its slot back), _dispatch_workq_monitor_pools (stalled pool gets one thread beyond its limit), plus _dispatch_lane_invoke, _dispatch_queue_invoke_finish, _dispatch_async_and_wait_invoke, _dispatch_lane_barrier_sync_invoke_and_complete. Still without contract: _dispatch_lane_invoke2 / _dispatch_lane_serial_drain (b_lane_drain is a bounded stand-in, <= 3 items), the work-queue tid table, workloops. OS scheduler, futex delivery trusted.", "5/C01, 10.3")
prop('C02', "Contracts on every transition that takes or gives the drain lock / barrier bit: lock only from an unowned, unsuspended state; barrier-sync fast path only from the completely idle state; unlock gives back exactly what was owned; a drain pops only from the head and stops at a sync waiter (bounded); recursion unlock walk never releases the stop queue (bounded); the public sync entry points decide the barrier flag first (dispatch_sync / barrier_sync / async_and_wait / barrier_async_and_wait: serial queue => always a barrier).",
     "Exclusion is per transition (guarantee side of rely/guarantee; the rely is the guarantee of the other contracts, not composed mechanically). _dispatch_barrier_sync_f_inline / _dispatch_sync_f_inline not under contract.", "5/C02, 10.3")
prop('C03', "Role of a queue is INNER unless its target is a root queue (inherit_wlh_from_target); retargeting only under a suspension with the new target retained first (set_target_queue, try_inactive_suspend); role recomputed from the actual target at activation and on a legacy retarget (lane_activate, legacy_set_target_queue); dispatch_get_specific / dispatch_assert_queue walk exactly the chain (bounded); sync slow path runs the item with the frame of the queue submitted to; a drain stops when the queue was retargeted (bounded); hierarchy unlock walk (bounded).",
     "_dispatch_sync_recurse (summary nodes + loop contract: any depth), _dispatch_queue_priority_inherit_from_target and _dispatch_lane_legacy_set_target_queue (incl. redundant retarget) are under contract; _dispatch_lane_invoke2 and workloops have no contract; some chain-walking loops are bounded stand-ins (depth 2-3).", "5/C03, 10.3")
prop('C04', "Width accounting contracts: reader fast paths refuse under IN_BARRIER / PENDING_BARRIER / DIRTY / suspension and add exactly one unit; upgrade to a barrier succeeds iff nobody else holds width; last reader takes over for a pending barrier; async bypass only with nothing queued; apply reserves and gives back exactly what it took.",
     "The accounting invariant (width field == units held) is a rely clause justified by the guarantees of the same contracts; _dispatch_lane_drain_non_barriers is under contract (every started reader is backed by one unit of width, exactly the unused part is given back; loop contract + cut point); barrier block objects become barrier items (_dispatch_continuation_init_slow).", "5/C04, 10.3")
prop('C05', "Sequencing and memory-order obligations read off the ghost commit log of every contract of C01-C10/C19: ownership-releasing commits are release or stronger, acquiring ones acquire or stronger, client call-outs precede the releasing commit; the thread event (parking primitive of dispatch_sync / apply waiters) is signalled by one release increment and a waiter returns only after an ACQUIRE read observed the signal (thread_event_signal / thread_event_wait, loop contract).",
     "Only annotations and program order inside one call are checked; the C11 / hardware memory model and the compiler's mapping of the annotations are trusted. futex syscalls trusted.", "5/C05, 10.3")
prop('C06', "Suspend / resume / activate transition contracts on dq_state including the side-count spill (total count changes by exactly one; last resume re-drives; activation only from inactive); every lock / fast path / hand-off refuses suspended or inactive states.",
     "Side-lock implementation trusted; nesting over whole histories is not composed mechanically.", "5/C06, 10.3")
prop('C07', "dg_state transition contracts for enter / leave (loop contract) / wait / wait_slow (loop contract) / notify, generation-carry lemma proved from the leave contract; wake list walk bounded (3 notifications).",
     "The futex system call is a kernel model (h_wait_on_address: timeout only when the kernel wait timed out, a timed wait is issued once with the remaining time; h_wake_by_address: one private wake of all waiters); dispatch_group_async and the group-leaving invoke path (_dispatch_continuation_with_group_invoke) are under contract; notify list longer than 3 not covered by the bounded wake check.", "5/C07, 10.3")
prop('C08', "dsema_value contracts for signal / wait / wait_slow (timeout undoes exactly its own decrement or consumes the pending wake; EINTR is retried, timeout only on ETIMEDOUT), remaining-interval computation, permit-conservation lemma.",
     "Kernel semaphore semantics trusted; timespec split by 10^9 undecided (64-bit division, solver limit).", "5/C08, 10.3")
prop('C09', "Once-gate contracts: tryenter CAS from 0 only, initializer called once between the CAS and the release publish of DONE, broadcast wakes ALL waiters iff any, a waiter returns only after reading DONE (2 loop contracts), inline fast path skips only on DONE; three-state lemma.",
     "The futex system call is a kernel model (h_wake_by_address, h_wait_on_address); the owner value of the calling thread is never the unlocked value, also for a thread entering libdispatch for the first time (h_lock_value_for_self).", "5/C09, 10.3")
prop('C10', "dispatch_apply contracts: serial loop invariant (index k called k-th, exactly n calls, unbounded n), index-claim contract of _dispatch_apply_invoke2 (each claimed index called once, caller waits for completion before returning), width reserve / relinquish arithmetic; redirect walk bounded.",
     "Helper thread scheduling trusted; _dispatch_apply_f (helper submission) and dispatch_apply_f (worker count, descriptor, serial / redirect / root dispatch, never a direct call of the runners) are under contract; the caller's wait is the thread-event contract (h_thread_event_wait, shared with C05).", "5/C10, 10.3")
prop('C11', "Timer contracts: configuration arithmetic (interval >= 1, leeway <= interval/2, deadline = target + leeway saturating and never before the target, clock of the start time: timer_config_create), re-configuration replaces the settings and drops old fire counts, +2 reference balance while armed (timer_unote_configure / resume), no elapsed interval reported before its boundary (source_timer_data), heap index algebra lemma; heap order after removal as bounded stand-in in the thorough tier (6 timers).",
     "_dispatch_timers_run (harness written but parked: every back end times out, DESIGN.md 10.7) and the division in compute_missed have no decided contract; _dispatch_after, dispatch_source_set_timer, _dispatch_event_loop_drain_timers (never returns leaving a due timer unarmed; three loop contracts), _dispatch_timers_program and the clock readers (_dispatch_time_now) are under contract; kernel timer trusted.", "5/C11, 10.3")
prop('C12', "Full functional contracts of dispatch_time, dispatch_walltime, _dispatch_timeout, the encode/decode pair and _dispatch_time_nanoseconds_since_epoch over all 2^64 bases x 2^64 deltas (loop-free, complete), plus a monotonicity lemma proved from the contract of dispatch_time.",
     "Clock sources stubbed (arbitrary reading in range); tv_sec*10^9 uses the same compiler builtin in code and spec (multiplier equivalence is beyond SAT), cross-checked by a bounded harness on 16 boundary values.", "5/C12, 10.3")
prop('C13', "Subrange on leaves (complete) and on composites (<= 4 records, loop contracts over ghost prefix sums: every result record denotes the same bytes of the same leaf, one retain per referenced leaf, nothing outside the source view), copy_region on directly mappable objects, create_map (contiguous object maps to itself, composite to a fresh flat copy of the same size), data_flatten (every region copied to its own offset, unbounded number of regions), data_apply and create_concat (bounded: <= 4 records).",
     "dispatch_data_create (all destructor kinds, empty requests), _dispatch_data_dispose (incl. the munmap marker: genuine defect found and fixed, e911298) and the dispatch_data_copy_region entry point are under contract; copy_region's walk over composites is bounded; memcpy and allocator trusted. Composite subrange, apply and concat are bounded (records <= 4); b_subrange_composite_unwound (thorough) re-checks the subrange contract with the loops unwound.", "5/C13, 10.3")
prop('C14', "Per-step contracts of the dispatch I/O operation machinery over a RANGE MODEL of data objects (each object = the stream positions it denotes): perform (read and write: buffer sizing within high water / chunk / length, the one transfer targets exactly the free part of the buffer, bytes accounted once, outcome classification, no transfer on a stopped channel), deliver_data (read and write: every byte handed over once, in order, <= high water, low-water filter, done exactly on the last invocation, channel and fd entry held until the handler returned), dispose (done delivered once, before leaving the barrier group), stream pick / handler (current stream operation continued, oldest first, outcome -> action), operation_enqueue (closed channel => one done invocation with ECANCELED; accepted operation enters the barrier group first), io_barrier, io_init (cleanup handler posted once behind the close queue), io_close / stop, operation_create (immediate completion still ordered through the barrier queue), stream_cleanup_operations (bounded: exactly the stopped channel's operations).",
     "Kernel transfer = 0..len bytes or errno (assumed); data API replaced by stubs implementing its C13 contract; blocks posted with dispatch_async / dispatch_group_notify are lowered in place (evaluated where created): that each runs once, later, on its queue is C02/C07. Disk (pick-queue) path, convenience API dispatch_read/dispatch_write, fd-entry creation/close and epoll sources have no contract.", "5/C14, 10.3")
prop('C15', "Merge / latch step contracts on ds_pending_data: one atomic update + exactly one MAKE_DIRTY wakeup per merge; latch is one exchange with 0, the handler sees exactly the removed value, never 0; handler call-out only when armed and not cancelled.",
     "Handler exclusion is C02 on the source's lane; sum/union over whole histories not composed; timer sources excluded.", "5/C15, 10.3")
prop('C16', "Cancel contracts: first cancel sets the flag once and wakes the source dirty; invoke2 never calls the event handler once cancelled, runs the cancel handler exactly once after unregistration, ordering via ghost flags; a source cancelled before activation is marked installed then finalized, never registered (source_activate); cancel_and_wait wakes and activates the source before waiting and returns only after observing DELETED (loop contract).",
     "Cancellation issued from another thread in the middle of invoke2 is covered only through the interference model of the flags word; epoll internals stubbed.", "5/C16, 10.3")
prop('C17', "Reference-count step contracts (retain/release arithmetic, dispose exactly at -1, over-release and resurrection crash) and per-function reference-balance clauses in the contracts of the other properties (set_target_queue, timer resume, deliver_data, operation_dispose...).",
     "Whole-history lifetime (no use after the last release) is not decidable by per-function contracts and is not claimed.", "5/C17, 10.3")
prop('C18', "dispatch_get_global_queue as a total function of its two arguments + injectivity lemma; attribute table encode/decode bijection over all entries (to_info, from_info, 4 constructors, round-trip lemma); sync slow path keeps the submitted-to queue current; queue-specific table installed only by CAS from NULL, get_specific returns the nearest value of the chain, assert_queue / assert_queue_not accept / reject exactly the chain (bounded).",
     "dispatch_queue_set_specific is a bounded stand-in; chain walks are bounded stand-ins (<= 3 queues); dispatch_apply_f never runs the iterations by a direct call that skips the queue frame (h_dispatch_apply_f).", "5/C18, 10.3")
prop('C19', "Block-object contracts: body skipped iff cancelled before start, group left exactly once at first completion even when cancelled, wait touches only its own flag bits and is undone on timeout, cancel sets the flag once; direct invocation has the same life cycle (invoke_direct); notify registers exactly once on the private group.",
     "Blocks runtime / block.cpp (C++) out of reach of CBMC's front end; dispatch_block_create / _dispatch_block_create_with_voucher_and_priority (Blocks ABI) have no contract.", "5/C19, 10.3")
prop('C20', "Codec tables are inverse and inside the size the decoder checks (lemma on the real tables), UTF-8 sequence reader contract, subrange-map helper contract; Base64 / Base32 / Base32Hex decoders, Base64 encoder and (thorough) UTF-16 decoder equal a reference codec for EVERY fragmentation of the input into <= 3 regions (bounded: <= 9 resp. 6 bytes), output never longer than the buffer allocated; Base32 encoder (bounded) and (thorough) UTF-8 -> UTF-16 encoder incl. output-accepted-by-the-inverse-or-NULL for arbitrary bytes.",
     "The transform loops over regions are bounded stand-ins (stated bounds in the evidence), not proofs; dispatch_data_create_with_transform (format negotiation) has no contract; relies on the C13 contract of dispatch_data_apply (lowered by rule R-apply).", "5/C20, 10.3")

NA_DEFAULT = "no contract within reach of the installed verifier has been written for this property; nothing is claimed (see DESIGN.md 10.3)"

def main():
    checks = []; na = []
    for pid in sorted(P):
        hs = []
        for f in glob.glob(os.path.join(VERIF, 'contracts', 'C*', '*.c')):
            home = os.path.basename(os.path.dirname(f))
            txt = open(f).read()
            m = re.search(r'"props"\s*:\s*\[(.*?)\]', txt)
            props = re.findall(r'"(C\d+)"', m.group(1)) if m else []
            if home == pid or pid in props:
                hs.append(f)
        p = P[pid]
        if p['na']:
            na.append(dict(property_id=pid, reason=p['na'])); continue
        if not hs:
            na.append(dict(property_id=pid, reason=NA_DEFAULT)); continue
        checks.append(dict(
            property_id=pid,
            quick_cmd='./check %s --tier quick' % pid,
            thorough_cmd='./check %s --tier thorough' % pid,
            evidence_file='/verif/evidence/%s.json' % pid,
            replay_cmd_template='./check %s --replay {path}' % pid,
            engine='cbmc-dfcc',
            level_claimed=dict(category='proof', text=p['text'], design_ref='DESIGN.md ' + p['design']),
            level_note=p['note'],
            technique=TECH))
    man = dict(
        version=1,
        setup_cmd='./setup.sh',
        hooks=dict(guard='DISPATCH_VERIF_CONTRACTS', enable='none needed: the verification model is swapped in through the existing #ifndef __OS_INTERNAL_ATOMIC__ in src/shims.h by pre-including /verif/model/verif_model.h; no hook commits in /repo',
                   baseline_off_cmd='cmake --build /repo/_build && ctest --test-dir /repo/_build -j8 --timeout 900',
                   source_commits=[], add_only=True),
        engines=[dict(name='cbmc-dfcc', path='/verif/engine', serves_properties=sorted(c['property_id'] for c in checks),
                      kind_free_text='extractor (clang -E + textual rules + slicer) -> goto-cc -> goto-instrument --dfcc -> cbmc; native replay of counterexamples')],
        checks=checks,
        notes='fix commits in /repo: see known_findings.json (status fixed). Exit codes of ./check: 0 pass, 1 violation, 2 undecided (tool limit/extraction break; never reported as violation).',
        not_applicable=na)
    json.dump(man, open(os.path.join(VERIF, 'MANIFEST.json'), 'w'), indent=1)
    print('claimed:', [c['property_id'] for c in checks]); print('n/a:', [n['property_id'] for n in na])

if __name__ == '__main__':
    main()
