#!/usr/bin/env python3
"""tools/mut.py <repo-relative-file> <old-text> <new-text> -- <command...>
apply a textual mutation to /repo (must match exactly once), run the command, restore the file."""
import sys, subprocess, os
f, old, new = sys.argv[1:4]
assert sys.argv[4] == '--'
cmd = sys.argv[5:]
path = os.path.join('/repo', f)
orig = open(path).read()
n = orig.count(old)
if n != 1:
    print('mutation site matches %d times' % n); sys.exit(99)
try:
    open(path, 'w').write(orig.replace(old, new))
    rc = subprocess.call(cmd)
finally:
    open(path, 'w').write(orig)
print('[mut] exit code', rc)
sys.exit(0)
